"""Grammar-based text generation for the C01/C02 crash hunt.

* ``mutate(rng, text, k)``: apply ``k`` syntactic mutations to a (valid) meta-model text.
  Mutations are located through Python's ``ast`` (node positions) and draw replacement
  fragments from ``crashhunt_pools`` (one pool per construct of the dialect) or splice
  sub-trees of the same text.
* ``malformed(rng, text)``: truncated / non-Python / deeply nested / NUL / surrogate /
  non-UTF-8 inputs.  Returns ``(str | bytes, kind)``.
* ``shrink(text, failing)``: delta debugging on lines, then on tokens.

Pure standard library, deterministic in the ``random.Random`` passed in.
"""
from __future__ import annotations

import ast
import io
import random
import re
import tokenize
from typing import Callable, Dict, List, Optional, Sequence, Tuple, Union

from harness.gen import crashhunt_pools as P


# ----------------------------------------------------------------------------------
# Source positions
# ----------------------------------------------------------------------------------
class Src:
    def __init__(self, text: str):
        self.text = text
        self.lines = text.splitlines(keepends=True)
        self.starts = [0]
        for ln in self.lines:
            self.starts.append(self.starts[-1] + len(ln))

    def off(self, lineno: int, col_utf8: int) -> int:
        if lineno - 1 >= len(self.lines):
            return len(self.text)
        line = self.lines[lineno - 1]
        try:
            col = len(line.encode("utf-8", "surrogatepass")[:col_utf8].decode("utf-8", "surrogatepass"))
        except UnicodeDecodeError:
            col = col_utf8
        return self.starts[lineno - 1] + col

    def span(self, node: ast.AST) -> Tuple[int, int]:
        return (self.off(node.lineno, node.col_offset),
                self.off(node.end_lineno, node.end_col_offset))

    def seg(self, node: ast.AST) -> str:
        a, b = self.span(node)
        return self.text[a:b]


def _replace(text: str, a: int, b: int, new: str) -> str:
    return text[:a] + new + text[b:]


def _line_start(text: str, off: int) -> int:
    i = text.rfind("\n", 0, off)
    return i + 1


def _indent_of(text: str, off: int) -> str:
    ls = _line_start(text, off)
    m = re.match(r"[ \t]*", text[ls:])
    return m.group(0)


def _reindent(block: str, indent: str) -> str:
    """The pools are written for module level (body indented by 4) or for a class body
    (first line at column 0, continuation lines already indented by 4)."""
    lines = block.split("\n")
    return ("\n" + indent).join(lines)


# ----------------------------------------------------------------------------------
# Names available in a text
# ----------------------------------------------------------------------------------
class Names:
    def __init__(self, tree: ast.AST):
        self.classes: List[str] = []
        self.enums: List[str] = []
        self.props: List[str] = []
        self.sets: List[str] = []
        self.fns: List[str] = []
        for node in ast.walk(tree):
            if isinstance(node, ast.ClassDef):
                bases = [b.id for b in node.bases if isinstance(b, ast.Name)]
                (self.enums if "Enum" in bases else self.classes).append(node.name)
                for st in node.body:
                    if isinstance(st, ast.AnnAssign) and isinstance(st.target, ast.Name):
                        self.props.append(st.target.id)
            elif isinstance(node, ast.FunctionDef) and node.name != "__init__":
                self.fns.append(node.name)
        if isinstance(tree, ast.Module):
            for st in tree.body:
                if isinstance(st, ast.AnnAssign) and isinstance(st.target, ast.Name):
                    if isinstance(st.annotation, ast.Subscript):
                        self.sets.append(st.target.id)

    def fill(self, rng: random.Random, template: str) -> str:
        def pick(xs, default):
            return rng.choice(xs) if xs else default
        rep = {
            "p": pick(self.props, "prop_a"), "q": pick(self.props, "prop_b"),
            "C": pick(self.classes, "Some_class"), "D": pick(self.classes, "Other_class"),
            "E": pick(self.enums, "Some_enum"), "S": pick(self.sets, "Some_set"),
            "F": pick(self.fns, "matches_something"), "n": str(rng.choice([0, 1, 2, 3, 5, 70])),
            "NAME": rng.choice(["Zz_new", "Zz_other", "Zz_third"]),
        }
        try:
            return template.format(**rep)
        except (KeyError, IndexError, ValueError):
            return template


def py_literal(rng: random.Random, s: str) -> str:
    """Render a pattern as a Python string literal (several spellings)."""
    style = rng.random()
    body = s.replace("\\", "\\\\").replace('"', '\\"').replace("\n", "\\n").replace("\t", "\\t")
    body = "".join(c if (32 <= ord(c) < 0xD800 or 0xE000 <= ord(c)) and c != "\x7f"
                   else (f"\\x{ord(c):02x}" if ord(c) < 256 else f"\\u{ord(c):04x}") for c in body)
    if style < 0.15:
        body = body.replace("{", "{{").replace("}", "}}")
        return 'f"' + body + '"'
    if style < 0.25 and "\\" not in s and '"' not in s and all(32 <= ord(c) < 0xD800 for c in s):
        return 'r"' + s + '"'
    return '"' + body + '"'


# ----------------------------------------------------------------------------------
# Mutation operators: each returns the new text or None if not applicable
# ----------------------------------------------------------------------------------
def _nodes(tree, kind):
    return [n for n in ast.walk(tree) if isinstance(n, kind)]


def op_annotation(rng, src, tree, names):
    cands = []
    for n in ast.walk(tree):
        if isinstance(n, ast.AnnAssign):
            cands.append(n.annotation)
        elif isinstance(n, ast.arg) and n.annotation is not None:
            cands.append(n.annotation)
        elif isinstance(n, ast.FunctionDef) and n.returns is not None:
            cands.append(n.returns)
        elif isinstance(n, ast.Subscript) and isinstance(n.value, ast.Name) and n.value.id in (
                "List", "Optional", "Set"):
            cands.append(n.slice)
    if not cands:
        return None
    node = rng.choice(cands)
    a, b = src.span(node)
    return _replace(src.text, a, b, names.fill(rng, rng.choice(P.ANNOTATIONS)))


def _decorated(tree, kind):
    return [n for n in ast.walk(tree) if isinstance(n, kind) and True]


def op_class_decorator(rng, src, tree, names):
    classes = _nodes(tree, ast.ClassDef)
    if not classes:
        return None
    cls = rng.choice(classes)
    deco = names.fill(rng, rng.choice(P.CLASS_DECORATORS))
    if cls.decorator_list and rng.random() < 0.5:
        d = rng.choice(cls.decorator_list)
        a, b = src.span(d)
        a -= 1  # the '@'
        return _replace(src.text, a, b, deco)
    first = cls.decorator_list[0] if cls.decorator_list else cls
    a = _line_start(src.text, src.span(first)[0])
    ind = _indent_of(src.text, a)
    return _replace(src.text, a, a, ind + _reindent(deco, ind) + "\n")


def op_func_decorator(rng, src, tree, names):
    fns = _nodes(tree, (ast.FunctionDef, ast.AsyncFunctionDef))
    if not fns:
        return None
    fn = rng.choice(fns)
    deco = names.fill(rng, rng.choice(P.FUNC_DECORATORS))
    if fn.decorator_list and rng.random() < 0.5:
        d = rng.choice(fn.decorator_list)
        a, b = src.span(d)
        return _replace(src.text, a - 1, b, deco)
    first = fn.decorator_list[0] if fn.decorator_list else fn
    a = _line_start(src.text, src.span(first)[0])
    ind = _indent_of(src.text, a)
    return _replace(src.text, a, a, ind + _reindent(deco, ind) + "\n")


def _invariant_calls(tree):
    out = []
    for cls in _nodes(tree, ast.ClassDef):
        for d in cls.decorator_list:
            if isinstance(d, ast.Call) and isinstance(d.func, ast.Name) and d.func.id == "invariant":
                out.append((cls, d))
    return out


def op_inv_body(rng, src, tree, names):
    invs = [(c, d) for c, d in _invariant_calls(tree) if d.args and isinstance(d.args[0], ast.Lambda)]
    if not invs:
        return None
    cls, d = rng.choice(invs)
    local = Names(cls)
    local.classes, local.enums, local.sets, local.fns = names.classes, names.enums, names.sets, names.fns
    if not local.props or rng.random() < 0.3:
        local.props = names.props
    body = d.args[0].body
    new = local.fill(rng, rng.choice(P.INV_BODIES))
    r = rng.random()
    a, b = src.span(body)
    if r < 0.15:
        new = f"({src.text[a:b]}) and ({new})"
    elif r < 0.25:
        new = f"not ({new}) or ({src.text[a:b]})"
    return _replace(src.text, a, b, new)


def op_inv_description(rng, src, tree, names):
    invs = [(c, d) for c, d in _invariant_calls(tree) if len(d.args) >= 2]
    if not invs:
        return None
    _, d = rng.choice(invs)
    a, b = src.span(d.args[1])
    return _replace(src.text, a, b, names.fill(rng, rng.choice(P.INV_DESCRIPTIONS)))


def _verification_fns(tree):
    out = []
    if isinstance(tree, ast.Module):
        for st in tree.body:
            if isinstance(st, ast.FunctionDef):
                out.append(st)
    return out


def op_pattern_string(rng, src, tree, names):
    cands = []
    for fn in _verification_fns(tree):
        for n in ast.walk(fn):
            if isinstance(n, ast.Constant) and isinstance(n.value, str) and n.col_offset > 0:
                # skip the docstring
                if fn.body and isinstance(fn.body[0], ast.Expr) and fn.body[0].value is n:
                    continue
                cands.append(n)
            elif isinstance(n, ast.JoinedStr):
                cands.append(n)
    if not cands:
        return None
    node = rng.choice(cands)
    a, b = src.span(node)
    pat = rng.choice(P.PATTERNS)
    if rng.random() < 0.25:
        # combine two near misses / embed into a valid frame
        pat = "^" + pat.strip("^$") + rng.choice(P.PATTERNS).strip("^$") + "$"
    return _replace(src.text, a, b, py_literal(rng, pat))


def op_pattern_func(rng, src, tree, names):
    fns = _verification_fns(tree)
    tmpl = rng.choice(P.PATTERN_FUNCS)
    pat = py_literal(rng, rng.choice(P.PATTERNS + ["^a$", "^[a-z]+$", "^(x|y)*$"]))
    if pat.startswith(("f", "r")) and "rf{PAT}" in tmpl:
        pat = '"^a$"'
    if fns and rng.random() < 0.7:
        fn = rng.choice(fns)
        first = fn.decorator_list[0] if fn.decorator_list else fn
        a = _line_start(src.text, src.span(first)[0])
        b = src.span(fn)[1]
        new = tmpl.replace("{NAME}", fn.name).replace("{PAT}", pat).replace("{{", "{").replace("}}", "}")
        return _replace(src.text, a, b, new.rstrip("\n"))
    new = tmpl.replace("{NAME}", "matches_zz_new").replace("{PAT}", pat).replace("{{", "{").replace("}}", "}")
    return _insert_module_stmt(rng, src, tree, new.rstrip("\n"))


def op_docstring(rng, src, tree, names):
    cands = []
    for n in ast.walk(tree):
        body = getattr(n, "body", None)
        if isinstance(body, list):
            for st in body:
                if isinstance(st, ast.Expr) and isinstance(st.value, ast.Constant) and isinstance(
                        st.value.value, str):
                    cands.append(st.value)
    new = names.fill(rng, rng.choice(P.DOCSTRINGS))
    if not cands or rng.random() < 0.15:
        # add a docstring to something without one
        targets = [n for n in ast.walk(tree) if isinstance(n, (ast.ClassDef, ast.FunctionDef))]
        if not targets:
            return None
        t = rng.choice(targets)
        first = t.body[0]
        a = _line_start(src.text, src.span(first)[0])
        ind = _indent_of(src.text, a)
        return _replace(src.text, a, a, ind + new.replace("\n    ", "\n" + ind) + "\n")
    node = rng.choice(cands)
    a, b = src.span(node)
    ind = _indent_of(src.text, a)
    return _replace(src.text, a, b, new.replace("\n    ", "\n" + ind))


def _insert_module_stmt(rng, src, tree, stmt_text):
    body = tree.body if isinstance(tree, ast.Module) else []
    if not body:
        return src.text + "\n" + stmt_text + "\n"
    anchor = rng.choice(body)
    first = anchor.decorator_list[0] if getattr(anchor, "decorator_list", None) else anchor
    a = _line_start(src.text, src.span(first)[0])
    if rng.random() < 0.2:
        return src.text.rstrip("\n") + "\n\n\n" + stmt_text + "\n"
    return _replace(src.text, a, a, stmt_text + "\n\n\n")


def op_constant(rng, src, tree, names):
    new = names.fill(rng, rng.choice(P.CONSTANTS))
    consts = [st for st in getattr(tree, "body", []) if isinstance(st, ast.AnnAssign)]
    if consts and rng.random() < 0.4:
        st = rng.choice(consts)
        a, b = src.span(st)
        if isinstance(st.target, ast.Name):
            new = new.replace("Zz_new", st.target.id)
        return _replace(src.text, a, b, new)
    return _insert_module_stmt(rng, src, tree, new)


def op_module_stmt(rng, src, tree, names):
    return _insert_module_stmt(rng, src, tree, names.fill(rng, rng.choice(P.MODULE_STMTS)))


def op_class_body(rng, src, tree, names):
    classes = _nodes(tree, ast.ClassDef)
    if not classes:
        return None
    cls = rng.choice(classes)
    local = Names(cls)
    local.classes, local.enums, local.sets, local.fns = names.classes, names.enums, names.sets, names.fns
    if not local.props:
        local.props = names.props
    new = local.fill(rng, rng.choice(P.CLASS_BODY_STMTS))
    st = rng.choice(cls.body)
    first = st.decorator_list[0] if getattr(st, "decorator_list", None) else st
    a0 = src.span(first)[0]
    a = _line_start(src.text, a0)
    ind = _indent_of(src.text, a)
    new = new.replace("\n    ", "\n" + ind)
    if rng.random() < 0.35:
        b = src.span(st)[1]
        return _replace(src.text, a, b, ind + new)
    if rng.random() < 0.5:
        b = src.span(cls.body[-1])[1]
        return _replace(src.text, b, b, "\n\n" + ind + new)
    return _replace(src.text, a, a, ind + new + "\n\n")


def op_bases(rng, src, tree, names):
    classes = _nodes(tree, ast.ClassDef)
    if not classes:
        return None
    cls = rng.choice(classes)
    pool = ["DBC", "Enum", "int", "str", "bool", "float", "bytearray", "Missing", cls.name, "x.y", "1",
            "List[int]", "*b", "metaclass=M", "object"] + names.classes[:6] + names.enums[:2]
    k = rng.choice([0, 1, 1, 2, 2, 3])
    new_bases = ", ".join(rng.choice(pool) for _ in range(k))
    # locate "class Name(...)" header textually
    a = src.span(cls)[0]
    m = re.compile(r"class\s+\w+\s*(\([^)]*\))?\s*:").match(src.text, a)
    if not m:
        return None
    header = f"class {cls.name}({new_bases}):" if k or rng.random() < 0.5 else f"class {cls.name}:"
    return _replace(src.text, m.start(), m.end(), header)


def op_call_args(rng, src, tree, names):
    calls = _nodes(tree, ast.Call)
    if not calls:
        return None
    c = rng.choice(calls)
    parts = [src.seg(x) for x in c.args] + [
        (f"{k.arg}={src.seg(k.value)}" if k.arg else f"**{src.seg(k.value)}") for k in c.keywords]
    r = rng.random()
    if r < 0.25 and parts:
        del parts[rng.randrange(len(parts))]
    elif r < 0.45 and parts:
        parts.insert(rng.randrange(len(parts) + 1), rng.choice(parts))
    elif r < 0.6 and c.keywords:
        # keyword -> positional
        parts = [src.seg(x) for x in c.args] + [src.seg(k.value) for k in c.keywords]
    elif r < 0.7 and c.args:
        parts = [f"arg{i}={src.seg(x)}" for i, x in enumerate(c.args)] + parts[len(c.args):]
    elif r < 0.8:
        parts.append(rng.choice(["*a", "**k", "extra=1", "None", "1"]))
    elif r < 0.9:
        rng.shuffle(parts)
        parts = [p for p in parts if "=" not in p.split("(")[0]] + [p for p in parts if "=" in p.split("(")[0]]
    else:
        parts = []
    a, b = src.span(c)
    return _replace(src.text, a, b, f"{src.seg(c.func)}({', '.join(parts)})")


def op_splice_expr(rng, src, tree, names):
    exprs = [n for n in ast.walk(tree) if isinstance(n, ast.expr) and hasattr(n, "end_col_offset")
             and not isinstance(n, (ast.JoinedStr, ast.FormattedValue))]
    if len(exprs) < 2:
        return None
    dst = rng.choice(exprs)
    if rng.random() < 0.6:
        new = src.seg(rng.choice(exprs))
    else:
        new = rng.choice(P.GENERIC_EXPRS)
    a, b = src.span(dst)
    if "\n" in new and rng.random() < 0.5:
        new = "(" + new + ")"
    return _replace(src.text, a, b, new)


def op_stmt(rng, src, tree, names):
    stmts = [n for n in ast.walk(tree) if isinstance(n, ast.stmt)]
    if len(stmts) < 2:
        return None
    st = rng.choice(stmts)
    first = st.decorator_list[0] if getattr(st, "decorator_list", None) else st
    a = _line_start(src.text, src.span(first)[0])
    b = src.span(st)[1]
    seg = src.text[a:b]
    r = rng.random()
    if r < 0.4:   # delete
        return _replace(src.text, a, b, "")
    if r < 0.7:   # duplicate
        return _replace(src.text, b, b, "\n\n" + seg)
    other = rng.choice(stmts)   # move a copy elsewhere (may break indentation: fine)
    o = _line_start(src.text, src.span(other)[0])
    ind = _indent_of(src.text, o)
    seg2 = "\n".join(ind + ln.lstrip() if i == 0 else ln for i, ln in enumerate(seg.split("\n")))
    return _replace(src.text, o, o, seg2 + "\n")


def op_const_tweak(rng, src, tree, names):
    consts = [n for n in ast.walk(tree) if isinstance(n, ast.Constant) and hasattr(n, "end_col_offset")]
    if not consts:
        return None
    n = rng.choice(consts)
    if isinstance(n.value, bool) or n.value is None:
        pool = ["None", "True", "False", "1", "0", '"True"']
    elif isinstance(n.value, (int, float)):
        pool = ["-1", "0", "1", "2", "2 ** 31", "2 ** 63", "2 ** 64", "1.5", "True", "None", '"1"', "1e400",
                "-0.0", "0x10", "1_000", "99999999999999999999", "1j", "-(1)", "+1"]
    else:
        pool = ['""', '"x"', "b'x'", 'f"x"', '"\\ud800"', '"\\x00"', "None", "1", '"\U0001F600"', '"a" "b"',
                '"\\n"', "'''x\ny'''", '"x" * 2', "x"]
    a, b = src.span(n)
    return _replace(src.text, a, b, rng.choice(pool))


_OPS = [" == ", " != ", " < ", " <= ", " > ", " >= ", " in ", " not in ", " is ", " is not ", " and ", " or ",
        " + ", " - "]


def op_operator(rng, src, tree, names):
    spots = [m for m in re.finditer(r" (==|!=|<=|>=|<|>|in|not in|is not|is|and|or|\+|-) ", src.text)]
    if not spots:
        return None
    m = rng.choice(spots)
    return _replace(src.text, m.start(), m.end(), rng.choice(_OPS))


def op_identifier(rng, src, tree, names):
    idents = [n for n in ast.walk(tree) if isinstance(n, ast.Name)]
    attrs = [n for n in ast.walk(tree) if isinstance(n, ast.Attribute)]
    pool = (names.classes + names.enums + names.props + names.sets + names.fns
            + ["self", "None", "class_", "match", "len", "all", "range", "Gr\u00f6\u00dfe", "\ufb01x", "x", "DBC",
               "Enum", "List", "Optional", "int", "str", "descend", "model_type", "I_x", "_x", "X"])
    if attrs and rng.random() < 0.4:
        n = rng.choice(attrs)
        b = src.span(n)[1]
        a = b - len(n.attr)
        return _replace(src.text, a, b, rng.choice(pool))
    if not idents:
        return None
    n = rng.choice(idents)
    a, b = src.span(n)
    return _replace(src.text, a, b, rng.choice(pool))


def op_rename_def(rng, src, tree, names):
    """Rename a class / enum / property / function at its definition only (dangling or
    duplicate names, reserved names, non-ASCII)."""
    defs = [n for n in ast.walk(tree) if isinstance(n, (ast.ClassDef, ast.FunctionDef))]
    if not defs:
        return None
    d = rng.choice(defs)
    a = src.span(d)[0]
    m = re.compile(r"(class|def)\s+(\w+)").match(src.text, a)
    if not m:
        return None
    pool = names.classes + names.enums + names.fns + [
        "lower_case", "UPPER", "Class", "class_", "I_x", "Must_x", "_x", "__x", "Gr\u00f6\u00dfe", "X",
        "Aas", "Verification", "Enhanced", "match", "List", "DBC", "Enum", "int", "str", "__init__",
        "__eq__", "descend", "Model_type", "Type", "Kind", "x" * 300, "A__b", "A_", "a_B", "Ab_Cd", "AB"]
    return _replace(src.text, m.start(2), m.end(2), rng.choice(pool))


def op_whitespace(rng, src, tree, names):
    r = rng.random()
    t = src.text
    if r < 0.2:
        return t.replace("\n", "\r\n")
    if r < 0.3:
        return "\ufeff" + t
    if r < 0.5:
        i = rng.randrange(len(src.lines) or 1)
        return "".join(src.lines[:i] + ["\x0c\n"] + src.lines[i:])
    if r < 0.7:
        i = rng.randrange(len(src.lines) or 1)
        ln = src.lines[i] if src.lines else ""
        return "".join(src.lines[:i] + [ln.replace("    ", "\t", 1)] + src.lines[i + 1:])
    if r < 0.85:
        i = rng.randrange(len(src.lines) or 1)
        return "".join(src.lines[:i] + ["# comment \u00e4 \U0001F600\n"] + src.lines[i:])
    return t.rstrip("\n")


OPERATORS: List[Tuple[str, float, Callable]] = [
    ("annotation", 3.0, op_annotation),
    ("class_decorator", 3.0, op_class_decorator),
    ("func_decorator", 1.5, op_func_decorator),
    ("inv_body", 4.0, op_inv_body),
    ("inv_description", 1.0, op_inv_description),
    ("pattern_string", 3.0, op_pattern_string),
    ("pattern_func", 2.5, op_pattern_func),
    ("docstring", 3.0, op_docstring),
    ("constant", 3.5, op_constant),
    ("module_stmt", 3.0, op_module_stmt),
    ("class_body", 4.0, op_class_body),
    ("bases", 1.5, op_bases),
    ("call_args", 2.0, op_call_args),
    ("splice_expr", 3.0, op_splice_expr),
    ("stmt", 2.0, op_stmt),
    ("const_tweak", 1.5, op_const_tweak),
    ("operator", 1.0, op_operator),
    ("identifier", 2.0, op_identifier),
    ("rename_def", 1.5, op_rename_def),
    ("whitespace", 0.5, op_whitespace),
]


def mutate(rng: random.Random, text: str, k: int = 1,
           only: Optional[Sequence[str]] = None) -> Tuple[str, List[str]]:
    """Apply up to ``k`` mutations; after a mutation that makes the text unparsable no
    further AST-based mutation is possible, so the loop stops there."""
    applied: List[str] = []
    ops = [o for o in OPERATORS if only is None or o[0] in only]
    weights = [o[1] for o in ops]
    for _ in range(k):
        try:
            tree = ast.parse(text)
        except (SyntaxError, ValueError, RecursionError, MemoryError):
            break
        src = Src(text)
        names = Names(tree)
        for _attempt in range(6):
            name, _w, fn = rng.choices(ops, weights)[0]
            try:
                new = fn(rng, src, tree, names)
            except (IndexError, ValueError, AttributeError):
                new = None
            if new is not None and new != text:
                text = new
                applied.append(name)
                break
    return text, applied


# ----------------------------------------------------------------------------------
# Malformed stream
# ----------------------------------------------------------------------------------
def _deep(rng: random.Random, depth: int) -> str:
    kind = rng.choice(["paren", "list", "not", "attr", "binop", "call", "subscript", "lambda", "inv_attr",
                       "inv_not", "inv_and", "inv_paren", "anno", "indent", "fstring", "unary", "inv_index",
                       "pattern_group"])
    head = ('"""Doc."""\nfrom icontract import invariant, DBC\nfrom typing import List, Optional\n'
            'from re import match\nfrom aas_core_meta.marker import verification\n'
            '__version__ = "V1"\n__xml_namespace__ = "urn:x"\n\n')
    cls = ('class A(DBC):\n    """Doc."""\n    x: int\n    def __init__(self, x: int) -> None:\n'
           '        self.x = x\n')
    if kind == "paren":
        return "x = " + "(" * depth + "1" + ")" * depth + "\n"
    if kind == "list":
        return "x = " + "[" * depth + "]" * depth + "\n"
    if kind == "not":
        return "x = " + "not " * depth + "y\n"
    if kind == "attr":
        return "x = a" + ".b" * depth + "\n"
    if kind == "binop":
        return "x = 1" + " + 1" * depth + "\n"
    if kind == "call":
        return "x = f" + "()" * depth + "\n"
    if kind == "subscript":
        return "x = a" + "[0]" * depth + "\n"
    if kind == "lambda":
        return "x = " + "lambda: " * depth + "1\n"
    if kind == "unary":
        return "x = " + "-" * depth + "1\n"
    if kind == "inv_attr":
        return head + f'@invariant(lambda self: self.x{".y" * depth} == 1, "d")\n' + cls
    if kind == "inv_not":
        return head + f'@invariant(lambda self: {"not " * depth}(self.x == 1), "d")\n' + cls
    if kind == "inv_and":
        return head + f'@invariant(lambda self: self.x == 1{" and self.x == 1" * depth}, "d")\n' + cls
    if kind == "inv_paren":
        d = min(depth, 90)
        return head + f'@invariant(lambda self: {"(" * d}self.x == 1{")" * d}, "d")\n' + cls
    if kind == "inv_index":
        return head + f'@invariant(lambda self: self.x{"[0]" * depth} == 1, "d")\n' + cls
    if kind == "anno":
        d = min(depth, 90)
        anno = "List[" * d + "int" + "]" * d
        return head + (f'class A(DBC):\n    """Doc."""\n    x: {anno}\n    def __init__(self, x: {anno}) -> None:\n'
                       f'        self.x = x\n')
    if kind == "indent":
        d = min(depth, 99)
        return "".join(" " * i + "if x:\n" for i in range(d)) + " " * d + "pass\n"
    if kind == "fstring":
        return 'x = f"' + "{" * min(depth, 50) + "1" + "}" * min(depth, 50) + '"\n'
    d = min(depth, 500)
    return head + ('@verification\ndef matches_x(text: str) -> bool:\n    """Doc."""\n'
                   f'    return match("^{"(" * d}a{")" * d}$", text) is not None\n')


def malformed(rng: random.Random, seed: str) -> Tuple[Union[str, bytes], str]:
    r = rng.random()
    if r < 0.22:
        cut = rng.randrange(len(seed) + 1)
        return seed[:cut], "truncated"
    if r < 0.32:
        cut = rng.randrange(len(seed) + 1)
        return seed[cut:], "tail"
    if r < 0.50:
        return rng.choice(P.NON_PYTHON), "non_python"
    if r < 0.58:
        t = rng.choice(P.NON_PYTHON)
        lines = seed.splitlines(keepends=True)
        i = rng.randrange(len(lines) + 1)
        return "".join(lines[:i]) + t + "\n" + "".join(lines[i:]), "non_python_inside"
    if r < 0.72:
        return _deep(rng, rng.choice([50, 150, 400, 1200, 2000, 6000])), "deep"
    if r < 0.80:
        i = rng.randrange(len(seed) + 1)
        ch = rng.choice(["\x00", "\ud800", "\udfff", "\x1a", "\x7f", "\u2028", "\ufffe", "\U0010ffff", "\x0b"])
        return seed[:i] + ch + seed[i:], "odd_char"
    if r < 0.90:
        raw = seed.encode("utf-8", "surrogatepass")
        kind = rng.choice(["latin1", "utf16", "invalid_byte", "utf16_bom", "random", "utf8_trunc"])
        if kind == "latin1":
            return seed.replace("Doc", "D\u00f6c", 1).replace("the", "th\u00e9", 1).encode("latin-1", "replace") \
                   + b"# \xe4\n", "bytes_latin1"
        if kind == "utf16":
            return seed.encode("utf-16-le", "surrogatepass"), "bytes_utf16"
        if kind == "utf16_bom":
            return seed.encode("utf-16", "surrogatepass"), "bytes_utf16_bom"
        if kind == "invalid_byte":
            i = rng.randrange(len(raw) + 1)
            return raw[:i] + bytes([rng.choice([0x80, 0xff, 0xc0, 0xfe, 0xed])]) + raw[i:], "bytes_invalid"
        if kind == "utf8_trunc":
            return raw + "\U0001F600".encode()[:2], "bytes_trunc"
        return bytes(rng.randrange(256) for _ in range(rng.choice([1, 10, 200]))), "bytes_random"
    # token soup from the seed
    toks = re.findall(r"\w+|\S", seed)
    if not toks:
        return "", "soup"
    n = rng.choice([3, 10, 40, 200])
    return " ".join(rng.choice(toks) for _ in range(n)) + "\n", "soup"


# ----------------------------------------------------------------------------------
# Shrinking
# ----------------------------------------------------------------------------------
def _ddmin(units: List[str], failing: Callable[[str], bool], joiner: str, budget: List[int]) -> List[str]:
    n = 2
    while len(units) >= 2 and budget[0] > 0:
        chunk = max(1, len(units) // n)
        reduced = False
        for i in range(0, len(units), chunk):
            cand = units[:i] + units[i + chunk:]
            budget[0] -= 1
            if budget[0] <= 0:
                break
            if cand and failing(joiner.join(cand)):
                units = cand
                n = max(n - 1, 2)
                reduced = True
                break
        if not reduced:
            if chunk == 1:
                break
            n = min(n * 2, len(units))
    return units


def shrink(text: str, failing: Callable[[str], bool], max_tests: int = 250) -> str:
    """Delta debugging on lines, then on tokens of the remaining lines."""
    budget = [max_tests]
    lines = text.split("\n")
    lines = _ddmin(lines, failing, "\n", budget)
    cur = "\n".join(lines)
    if len(lines) <= 12 and budget[0] > 0:
        try:
            toks = []
            pos = (1, 0)
            for tok in tokenize.generate_tokens(io.StringIO(cur).readline):
                toks.append(tok)
        except (tokenize.TokenError, IndentationError, SyntaxError):
            return cur
        # remove single tokens (by character span) while it still fails
        src = Src(cur)
        spans = []
        for t in toks:
            if t.type in (tokenize.NL, tokenize.NEWLINE, tokenize.INDENT, tokenize.DEDENT,
                          tokenize.ENDMARKER):
                continue
            a = src.starts[t.start[0] - 1] + t.start[1] if t.start[0] - 1 < len(src.starts) else None
            b = src.starts[t.end[0] - 1] + t.end[1] if t.end[0] - 1 < len(src.starts) else None
            if a is not None and b is not None and b > a:
                spans.append((a, b))
        for a, b in reversed(spans):
            if budget[0] <= 0:
                break
            cand = cur[:a] + cur[b:]
            budget[0] -= 1
            if failing(cand):
                cur = cand
    return cur


# ----------------------------------------------------------------------------------
# Systematic sweep: one minimal module per pool entry
# ----------------------------------------------------------------------------------
_SWEEP_HEADER = '''"""Provide a minimal meta-model."""
from enum import Enum
from re import match
from typing import List, Optional, Set

from icontract import invariant, DBC

from aas_core_meta.marker import (
    abstract,
    serialization,
    implementation_specific,
    verification,
    constant_set,
    non_mutating,
)

__version__ = "V1"

__xml_namespace__ = "urn:example:sweep"


@verification
def matches_something(text: str) -> bool:
    """Check the text."""
    return match("^[a-z]+$", text) is not None


class Some_enum(Enum):
    """Enumerate something."""

    First = "first"
    Second = "second"


Some_set: Set[str] = constant_set(values=["a", "b"], description="Define a set.")


class Other_class(DBC):
    """Represent the other thing."""

    prop_b: int
    """Hold the number."""

    def __init__(self, prop_b: int) -> None:
        self.prop_b = prop_b


'''

_SWEEP_CLASS = '''class Some_class(DBC):
    """Represent something."""

    prop_a: str
    """Hold the text."""

    prop_b: Optional[List[Other_class]]
    """Hold the others."""

    def __init__(self, prop_a: str, prop_b: Optional[List[Other_class]] = None) -> None:
        self.prop_a = prop_a
        self.prop_b = prop_b
'''


class _FixedNames(Names):
    def __init__(self):
        self.classes = ["Other_class"]
        self.enums = ["Some_enum"]
        self.props = ["prop_a"]
        self.sets = ["Some_set"]
        self.fns = ["matches_something"]

    def fill(self, rng, template, q="prop_b", n="3"):
        rep = {"p": "prop_a", "q": q, "C": "Other_class", "D": "Some_class", "E": "Some_enum",
               "S": "Some_set", "F": "matches_something", "n": n, "NAME": "Zz_new"}
        try:
            return template.format(**rep)
        except (KeyError, IndexError, ValueError):
            return template


def sweep_texts() -> List[Tuple[str, str]]:
    """(text, label) for every entry of every pool, each applied once to a minimal
    valid module; deterministic."""
    names = _FixedNames()
    rng = random.Random(0)
    out: List[Tuple[str, str]] = []
    H, C = _SWEEP_HEADER, _SWEEP_CLASS
    for i, a in enumerate(P.ANNOTATIONS):
        a = names.fill(rng, a)
        out.append((H + C + f'\n\nclass Zz(DBC):\n    """Doc."""\n\n    x: {a}\n\n'
                    f'    def __init__(self, x: {a}) -> None:\n        self.x = x\n', f"annotation:{i}"))
    for i, d in enumerate(P.CLASS_DECORATORS):
        out.append((H + names.fill(rng, d) + "\n" + C, f"class_decorator:{i}"))
    for i, d in enumerate(P.FUNC_DECORATORS):
        out.append((H + C + "\n\n" + names.fill(rng, d)
                    + '\ndef matches_zz(text: str) -> bool:\n    """Check."""\n'
                      '    return match("^a$", text) is not None\n', f"func_decorator:{i}"))
    for i, b in enumerate(P.INV_BODIES):
        for q in ("prop_b", "prop_a"):
            body = names.fill(rng, b, q=q)
            out.append((H + f'@invariant(\n    lambda self: {body},\n    "Constraint {i}"\n)\n' + C,
                        f"inv_body:{i}:{q}"))
            if "{q}" not in b:
                break
    for i, d in enumerate(P.INV_DESCRIPTIONS):
        out.append((H + f'@invariant(lambda self: len(self.prop_a) > 0, {names.fill(rng, d)})\n' + C,
                    f"inv_description:{i}"))
    for i, pat in enumerate(P.PATTERNS):
        for style in (0.5, 0.0):
            lit = py_literal(random.Random(style), pat) if style else None
            if lit is None:
                r0 = random.Random(1)
                r0.random = lambda: 0.0   # force the f-string spelling
                lit = py_literal(r0, pat)
            out.append((H + C + f'\n\n@verification\ndef matches_zz(text: str) -> bool:\n    """Check."""\n'
                        f'    pattern = {lit}\n    return match(pattern, text) is not None\n',
                        f"pattern:{i}:{'plain' if style else 'fstring'}"))
    for i, tmpl in enumerate(P.PATTERN_FUNCS):
        new = tmpl.replace("{NAME}", "matches_zz").replace("{PAT}", '"^a$"').replace("{{", "{").replace("}}", "}")
        out.append((H + C + "\n\n" + new, f"pattern_func:{i}"))
    for i, d in enumerate(P.DOCSTRINGS):
        d = names.fill(rng, d)
        out.append((H + f'class Zz(DBC):\n    {d}\n\n    x: int\n    {d}\n\n'
                    f'    def __init__(self, x: int) -> None:\n        self.x = x\n\n\n' + C, f"docstring:{i}:class"))
        out.append((H + C + f'\n\n@verification\ndef matches_zz(text: str) -> bool:\n    {d}\n'
                    f'    return match("^a$", text) is not None\n\n\n'
                    f'class Zz_enum(Enum):\n    {d}\n\n    Lit = "lit"\n    {d}\n\n\n'
                    f'Zz_set: Set[str] = constant_set(values=["z"], description={d if chr(10) not in d else chr(34) + "Doc." + chr(34)})\n',
                    f"docstring:{i}:function"))
    for i, c in enumerate(P.CONSTANTS):
        out.append((H + C + "\n\n" + names.fill(rng, c) + "\n", f"constant:{i}"))
    for i, s in enumerate(P.MODULE_STMTS):
        out.append((H + C + "\n\n" + names.fill(rng, s) + "\n", f"module_stmt:{i}"))
    for i, s in enumerate(P.CLASS_BODY_STMTS):
        s = names.fill(rng, s)
        out.append((H + C + "\n    " + s + "\n", f"class_body:{i}:append"))
        out.append((H + 'class Zz(Other_class):\n    """Doc."""\n\n    ' + s + "\n", f"class_body:{i}:alone"))
    for i, t in enumerate(P.NON_PYTHON):
        out.append((t, f"non_python:{i}"))
        out.append((H + C + "\n" + t + "\n", f"non_python_inside:{i}"))
    return out


# ----------------------------------------------------------------------------------
# Line-boundary family: characters on which Python's tokenizer, ``str.splitlines`` and
# ``split("\n")`` disagree, placed BEFORE constructs that produce located errors
# ----------------------------------------------------------------------------------
BOUNDARY_CHARS = [("u2028", "\u2028"), ("u2029", "\u2029"), ("u0085", "\x85"), ("ff", "\x0c"),
                  ("x1c", "\x1c"), ("x1d", "\x1d"), ("x1e", "\x1e"), ("vt", "\x0b"), ("cr", "\r")]

# (name, filler line(s) above, construct) -- every construct makes the front end report an
# error located at a node; the f-string ones locate a node nested in a formatted string
_FILLERS = [("e0", "    # N" + "é" * 40), ("e1", "    # Nx" + "é" * 40),
            ("eur0", "    # " + "€" * 30), ("eur1", "    # x" + "€" * 30),
            ("eur2", "    # xy" + "€" * 30), ("astral", "    # " + "\U0001F600" * 20)]
_FSTRING_EXPRS = ["unsupported(1)", "unknown_variable", "a!r", "a:>3", "1 + 2", "\"é\" + x"]


def boundary_texts() -> List[Tuple[str, str]]:
    out: List[Tuple[str, str]] = []
    tail = '\n\n__version__ = "dummy"\n__xml_namespace__ = "https://dummy.com"\n'
    for cname, ch_ in BOUNDARY_CHARS:
        sep = ch_ if ch_ != "\r" else "\r# "
        for count in (1, 2, 3):
            head = "# Copied from the book:" + (sep + "Details of the shell") * count + "\n"
            for fname, filler in _FILLERS:
                for ei, expr in enumerate(_FSTRING_EXPRS):
                    if count > 1 and ei > 1:
                        continue
                    same_line = "é€" if ei % 2 else ""
                    body = ("@verification\ndef match_something(text: str) -> bool:\n"
                            + (filler + "\n") * 3
                            + f'    pattern = f"^{same_line}{{{expr}}}$"\n'
                            + filler + "\n"
                            + "    return match(pattern, text) is not None\n")
                    out.append((head + body + tail, f"boundary:{cname}:{count}:{fname}:fstring{ei}"))
        # other placements of the character, other located errors
        doc = f'"""Provide a meta-model.{ch_ if ch_ != chr(13) else chr(13)}Second part é€."""\n'
        strc = f'Zz_text: str = constant_str(value="a{ch_}b é")\n'
        comment = "# note:" + sep + "continued é\n"
        constructs = [
            ("annotation", 'class A(DBC):\n    """Doc é."""\n    x: "a é b"\n'),
            ("decorator", '@serialization(with_model_type=1)\nclass A(DBC):\n    """Doc é."""\n'),
            ("invariant", '@invariant(lambda self: self.x @ 1, "é")\nclass A(DBC):\n    """Doc."""\n    x: int\n'
                          '    def __init__(self, x: int) -> None:\n        self.x = x\n'),
            ("constant", 'Zz: Set[str] = constant_set(values=["é", 1 + 2])\n'),
            ("enum", 'class E(Enum):\n    A = "é"\n    x.B = "b"\n'),
            ("pattern", '@verification\ndef match_x(text: str) -> bool:\n    # ééé\n'
                        '    return match("^é[$", text) is not None\n'),
            ("docref", 'class A(DBC):\n    """Doc é :class:`Missing`."""\n'),
        ]
        for pname, place in (("comment", comment), ("docstring", doc), ("string", strc)):
            for kname, construct in constructs:
                pre = place if pname != "docstring" else place
                text = (pre if pname == "docstring" else "") + \
                       "from enum import Enum\nfrom re import match\nfrom typing import List, Optional, Set\n" \
                       "from icontract import invariant, DBC\n" \
                       "from aas_core_meta.marker import serialization, verification, constant_set\n" + \
                       (pre if pname != "docstring" else "") + "\n" + construct + tail
                out.append((text, f"boundary:{cname}:{pname}:{kname}"))
    return out


def boundary_core(texts: List[Tuple[str, str]]) -> List[Tuple[str, str]]:
    """The quick-tier subset: every character with one separator, three fillers and two
    f-string expressions, and every (character, placement) with three constructs."""
    keep = []
    for t, label in texts:
        parts = label.split(":")
        if parts[-1].startswith("fstring"):
            if parts[2] == "1" and parts[3] in ("e0", "e1", "eur1") and parts[-1] in ("fstring0", "fstring1"):
                keep.append((t, label))
        elif parts[3] in ("annotation", "pattern", "enum"):
            keep.append((t, label))
    return keep
