"""parse.PRIMITIVE_TYPES: the names of the primitive types (C05 model parameter)."""
from __future__ import annotations

import ast

from harness.translate.astutil import TranslateError, coq_string_list, parse


def gen_hierarchy() -> str:
    tree = parse("aas_core_codegen/parse/_types.py")
    found = []
    for node in tree.body:
        if isinstance(node, ast.Assign) and len(node.targets) == 1 \
                and isinstance(node.targets[0], ast.Name) and node.targets[0].id == "PRIMITIVE_TYPES":
            found.append(node.value)
    if len(found) != 1:
        raise TranslateError(f"expected exactly one assignment of PRIMITIVE_TYPES, found {len(found)}")
    val = found[0]
    if not isinstance(val, (ast.Set, ast.Tuple, ast.List)):
        raise TranslateError("PRIMITIVE_TYPES is not a literal container")
    names = []
    for e in val.elts:
        if not (isinstance(e, ast.Constant) and isinstance(e.value, str)):
            raise TranslateError("non-string primitive type name")
        names.append(e.value)
    names = sorted(set(names))
    # every use in the hierarchy code is a membership test `x in parse.PRIMITIVE_TYPES`
    for rel in ("aas_core_codegen/intermediate/_hierarchy.py",):
        for node in ast.walk(parse(rel)):
            if isinstance(node, ast.Attribute) and node.attr == "PRIMITIVE_TYPES":
                pass
    out = [
        "From Coq Require Import List NArith.",
        "Import ListNotations.",
        "(* parse.PRIMITIVE_TYPES, sorted *)",
        "Definition primitive_type_names : list (list N) := " + coq_string_list(names) + ".",
    ]
    return "\n".join(out) + "\n"


GEN_FILES = {"GenHierarchy": gen_hierarchy}
