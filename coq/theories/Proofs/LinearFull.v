(** C26: the clean-up passes preserve the event traces — for ALL codes satisfying the
    invariants (labels pairwise distinct, every target is a label), hence for the
    linearisation of every well-formed flow. One [simulates] lemma per pass. *)
From Coq Require Import List NArith Bool Arith Lia.
From Acg Require Import Base.Outcome Base.Str Model.Flow Model.Linear
  Proofs.LinearSem Proofs.LinearRaw Proofs.LinearPasses Proofs.LinearTargets
  Proofs.LinearPos Proofs.LinearNoops.
Import ListNotations.
Open Scope nat_scope.

Lemma labelled_kept : forall s t, s_label s = Some t -> keep_stmt s = true.
Proof. intros s t H. unfold keep_stmt. rewrite H. apply orb_true_r. Qed.

(* ------------------------------------------------------------------------- *)
(** * _remove_redundant_labels_in_place *)
Lemma drop_kind : forall ts s, s_kind (drop_label_unless ts s) = s_kind s.
Proof.
  intros ts s. unfold drop_label_unless. destruct (s_label s); [destruct (mem_nat _ _)|]; reflexivity.
Qed.

Lemma simA : forall c, NoDup (labels c) -> targets_in_labels c ->
  simulates (flat_machine c) (LRun 0) (flat_machine (remove_redundant_labels c)) (LRun 0).
Proof.
  intros c Hnd Htl. apply same_sim.
  - unfold remove_redundant_labels. rewrite map_length. reflexivity.
  - intros p s1 s2 H1 H2. unfold remove_redundant_labels in H2.
    rewrite nth_error_map, H1 in H2. cbn in H2. inversion H2; subst s2. clear H2.
    rewrite drop_kind. rewrite <- (map_targets_id (s_kind s1)) at 2.
    apply kind_rel_map. intros t Ht.
    assert (Hct : In t (collect_targets c)) by (eapply targets_of_stmt; eassumption).
    destruct (find_label_in c t (Htl t Hct)) as [q Hq].
    apply (target_rel_same _ _ t t q Hq).
    destruct (find_label_some _ _ _ Hq) as [s [Hs Ls]].
    apply (find_label_nodup _ q (drop_label_unless (collect_targets c) s) t).
    + unfold remove_redundant_labels. eapply subseq_nodup; [apply labels_drop|exact Hnd].
    + unfold remove_redundant_labels. rewrite nth_error_map, Hs. reflexivity.
    + unfold drop_label_unless. rewrite Ls.
      replace (mem_nat t (collect_targets c)) with true; [exact Ls|].
      symmetry. unfold mem_nat. apply existsb_exists. exists t. split; [exact Hct|apply Nat.eqb_refl].
Qed.

(* ------------------------------------------------------------------------- *)
(** * _remove_noops_in_place, first filter *)
Lemma simB1 : forall c, NoDup (labels c) -> targets_in_labels c ->
  simulates (flat_machine c) (LRun 0) (flat_machine (filter keep_stmt c)) (LRun 0).
Proof.
  intros c Hnd Htl.
  rewrite <- (map_id (filter keep_stmt c)).
  apply (del_sim c c (fun s => s)).
  - reflexivity.
  - intros p s1 s' H1 H2 K. rewrite H1 in H2. inversion H2; subst s'.
    apply keep_false_noop in K. tauto.
  - intros p s1 s' H1 H2 K. rewrite H1 in H2. inversion H2; subst s'. clear H2.
    rewrite <- (map_targets_id (s_kind s1)) at 2. apply kind_rel_map. intros t Ht.
    assert (Hct : In t (collect_targets c)) by (eapply targets_of_stmt; eassumption).
    destruct (find_label_in c t (Htl t Hct)) as [q Hq].
    destruct (find_label_some _ _ _ Hq) as [s [Hs Ls]].
    exists q, (phi_f c q). cbn [flat_machine m_resolve m_code].
    split; [exact Hq|]. split.
    + rewrite map_id. apply (find_label_nodup _ _ s t).
      * rewrite labels_filter_keep. exact Hnd.
      * apply nth_filter; [exact Hs|eapply labelled_kept; exact Ls].
      * exact Ls.
    + split; [apply Nat.lt_le_incl; eapply find_label_lt; exact Hq|].
      split; [lia|]. intros j Hj. lia.
Qed.

(* ------------------------------------------------------------------------- *)
(** * _remove_noops_in_place, main loop + second filter + re-wiring *)
Lemma kinds_nth : forall a b p x y, map s_kind a = map s_kind b ->
  nth_error a p = Some x -> nth_error b p = Some y -> s_kind x = s_kind y.
Proof.
  intros a b p x y H Hx Hy.
  assert (E : nth_error (map s_kind a) p = nth_error (map s_kind b) p) by (rewrite H; reflexivity).
  rewrite !nth_error_map, Hx, Hy in E. cbn in E. congruence.
Qed.

Lemma simB2 : forall c1 o m, noop_loop c1 [] [] = Ok (o, m) ->
  NoDup (labels c1) -> noops_labelled c1 -> targets_in_labels c1 ->
  simulates (flat_machine c1) (LRun 0)
            (flat_machine (map (rewire m) (filter keep_stmt o))) (LRun 0).
Proof.
  intros c1 o m E Hnd Hnl Htl.
  destruct (noop_loop_remap _ _ _ _ _ E) as [_ [_ I3]]; [exact Hnd|intros t _; reflexivity|].
  cbn [app] in I3.
  assert (Hndo : NoDup (labels o)).
  { destruct (noop_loop_ok c1 [] [] Hnl) as [o' [m' [E' Hsub]]]; [intros x []|].
    rewrite E in E'. inversion E'; subst o' m'. eapply subseq_nodup; [exact Hsub|exact Hnd]. }
  set (c4 := map (rewire m) (filter keep_stmt o)).
  assert (Hnd4 : NoDup (labels c4)).
  { unfold c4. rewrite labels_rewire, labels_filter_keep. exact Hndo. }
  assert (Hc4 : forall n s t, nth_error o n = Some s -> s_label s = Some t ->
                find_label c4 t = Some (phi_f o n)
                /\ nth_error c4 (phi_f o n) = Some (rewire m s)).
  { intros n s t Hn Ls.
    assert (Hnth : nth_error c4 (phi_f o n) = Some (rewire m s)).
    { unfold c4. rewrite nth_error_map, (nth_filter o n s Hn (labelled_kept s t Ls)). reflexivity. }
    split; [|exact Hnth]. apply (find_label_nodup _ _ (rewire m s) t Hnd4 Hnth). exact Ls. }
  apply (del_sim c1 o (rewire m)).
  - apply (f_equal (@length _)) in I3. rewrite !map_length in I3. symmetry. exact I3.
  - intros p s1 s' H1 H2 K. apply keep_false_noop in K. destruct K as [K _].
    rewrite <- K. symmetry. eapply kinds_nth; eassumption.
  - intros p s1 s' H1 H2 K. cbn [rewire s_kind].
    rewrite (kinds_nth _ _ _ _ _ I3 H2 H1), retarget_map_targets.
    apply kind_rel_map. intros t Ht.
    assert (Hct : In t (collect_targets c1)) by (eapply targets_of_stmt; eassumption).
    pose proof (Htl t Hct) as Hlab.
    destruct (noop_loop_pos _ _ _ _ _ E Hnd (fun t _ => eq_refl) (fun b (H : In b []) => match H with end) t Hlab)
      as [n1 [n2 [s [s'' [A1 [L1 [A2 [L2 Hc]]]]]]]].
    cbn [app] in A1.
    pose proof (find_label_nodup c1 n1 s t Hnd A1 L1) as F1.
    destruct (Hc4 n2 s'' _ A2 L2) as [F2 N2].
    assert (Hn1 : n1 < length c1) by (apply nth_error_Some; congruence).
    exists n1, (phi_f o n2). fold c4. cbn [flat_machine m_resolve m_code].
    split; [exact F1|]. split; [exact F2|]. split; [lia|].
    destruct Hc as [[Hle Hu]|[Hlt [Hk Hu]]].
    + assert (Hphi : phi_f o n2 = phi_f o n1).
      { replace n2 with (n1 + (n2 - n1)) by lia. apply phi_f_unkept.
        intros j Hj. apply Hu. lia. }
      rewrite Hphi. split; [lia|]. intros j Hj. lia.
    + assert (Hphi : phi_f o n1 = S (phi_f o n2)).
      { replace n1 with (S n2 + (n1 - S n2)) by lia. rewrite phi_f_unkept.
        - rewrite (phi_f_S o n2 s'' A2), (labelled_kept s'' _ L2). lia.
        - intros j Hj. apply Hu. lia. }
      rewrite Hphi. split; [lia|]. intros j Hj. assert (j = phi_f o n2) by lia. subst j.
      exists (rewire m s''). split; [exact N2|]. cbn [rewire s_kind]. rewrite Hk. reflexivity.
Qed.

Lemma filter_til : forall c, targets_in_labels c -> targets_in_labels (filter keep_stmt c).
Proof.
  intros c H t Ht. rewrite labels_filter_keep. apply H. eapply ct_filter. exact Ht.
Qed.

Lemma simB : forall c out, remove_noops c = Ok out -> NoDup (labels c) -> targets_in_labels c ->
  simulates (flat_machine c) (LRun 0) (flat_machine out) (LRun 0).
Proof.
  intros c out H Hnd Htl. unfold remove_noops in H.
  destruct (noop_loop (filter keep_stmt c) [] []) as [[o m]| |] eqn:E; cbn [bind fst snd] in H;
    try discriminate.
  inversion H; subst out. clear H.
  eapply simulates_trans; [apply simB1; assumption|].
  apply simB2; [exact E| | |].
  - rewrite labels_filter_keep. exact Hnd.
  - apply filter_noops_labelled.
  - apply filter_til. exact Htl.
Qed.

Lemma simAB : forall c out, compress c = Ok out -> NoDup (labels c) -> targets_in_labels c ->
  simulates (flat_machine c) (LRun 0) (flat_machine out) (LRun 0).
Proof.
  intros c out H Hnd Htl. unfold compress in H.
  eapply simulates_trans; [apply simA; assumption|].
  apply (simB _ _ H).
  - unfold remove_redundant_labels. eapply subseq_nodup; [apply labels_drop|exact Hnd].
  - apply redundant_til. exact Htl.
Qed.

(* ------------------------------------------------------------------------- *)
(** * _fix_labels_in_place *)

(** [pos_rel r a b]: aligned lists; kinds related by the renaming [r] of targets,
    existing labels renamed by [r]. *)
Definition pos_rel (r : nat -> nat) (a b : list stmt) : Prop :=
  length b = length a /\
  forall p s, nth_error a p = Some s ->
  exists s', nth_error b p = Some s' /\ s_kind s' = map_targets r (s_kind s)
             /\ (forall t, s_label s = Some t -> s_label s' = Some (r t)).

Definition idr (t : nat) : nat := t.

Lemma map_targets_idr : forall k, map_targets idr k = k.
Proof. exact map_targets_id. Qed.

Lemma pos_rel_refl : forall a, pos_rel idr a a.
Proof.
  intros a. split; [reflexivity|]. intros p s H. exists s. rewrite map_targets_idr. auto.
Qed.

Lemma pos_rel_cons : forall r x y a b, s_kind y = map_targets r (s_kind x) ->
  (forall t, s_label x = Some t -> s_label y = Some (r t)) ->
  pos_rel r a b -> pos_rel r (x :: a) (y :: b).
Proof.
  intros r x y a b Hk Hl [Hlen H]. split; [cbn; rewrite Hlen; reflexivity|].
  intros p s Hp. destruct p as [|p]; cbn in Hp.
  - inversion Hp; subst s. exists y. auto.
  - apply H. exact Hp.
Qed.

Lemma label_first_pos : forall ss lbl, pos_rel idr ss (fst (label_first ss lbl)).
Proof.
  intros [|s r] lbl; [apply pos_rel_refl|]. cbn [label_first].
  destruct (s_label s) eqn:E; cbn [fst]; [apply pos_rel_refl|].
  apply pos_rel_cons; [rewrite map_targets_idr; reflexivity| |apply pos_rel_refl].
  intros t Ht. congruence.
Qed.

Lemma lay_pos : forall ss b lbl, pos_rel idr ss (label_after_yields b ss lbl).
Proof.
  induction ss as [|s r IH]; intros b lbl; [apply pos_rel_refl|].
  cbn [label_after_yields]. destruct (s_label s) eqn:E.
  - apply pos_rel_cons; [rewrite map_targets_idr; reflexivity|auto|apply IH].
  - destruct b.
    + apply pos_rel_cons; [rewrite map_targets_idr; reflexivity| |apply IH].
      intros t Ht. congruence.
    + apply pos_rel_cons; [rewrite map_targets_idr; reflexivity|auto|apply IH].
Qed.

Lemma fix_stmt_spec : forall M s y, fix_stmt M s = Ok y ->
  s_kind y = map_targets (remap M) (s_kind s)
  /\ (forall t, s_label s = Some t -> s_label y = Some (remap M t)).
Proof.
  intros M s y H. unfold fix_stmt in H. destruct (s_label s) as [l|] eqn:E.
  - destruct (dict_get M l) as [v|] eqn:D; inversion H; subst y. cbn [s_kind s_label].
    split; [apply retarget_map_targets|]. intros t Ht. inversion Ht; subst t.
    unfold remap. rewrite D. reflexivity.
  - inversion H; subst y. cbn [s_kind s_label]. split; [apply retarget_map_targets|].
    intros t Ht. discriminate.
Qed.

Lemma map_o_pos : forall M l out, map_o (fix_stmt M) l = Ok out -> pos_rel (remap M) l out.
Proof.
  intros M; induction l as [|x l IH]; intros out H.
  - cbn in H. inversion H. split; [reflexivity|]. intros p s Hp. destruct p; discriminate.
  - cbn [map_o] in H. destruct (fix_stmt M x) as [y| |] eqn:Ey; cbn [bind] in H; try discriminate.
    destruct (map_o (fix_stmt M) l) as [ys| |] eqn:Eys; cbn [bind] in H; try discriminate.
    inversion H; subst out. destruct (fix_stmt_spec _ _ _ Ey) as [A B].
    apply pos_rel_cons; [exact A|exact B|apply IH; reflexivity].
Qed.

(** After a yield comes a labelled statement. *)
Definition AY (l : list stmt) : Prop :=
  forall j a b, nth_error l j = Some a -> nth_error l (S j) = Some b ->
  s_kind a = KYield -> s_label b <> None.

Lemma lay_kind_head : forall s r b lbl, exists s' r',
  label_after_yields b (s :: r) lbl = s' :: r' /\ s_kind s' = s_kind s
  /\ (b = true -> s_label s' <> None)
  /\ exists lbl', r' = label_after_yields (is_yield s) r lbl'.
Proof.
  intros s r b lbl. cbn [label_after_yields]. destruct (s_label s) eqn:E.
  - eexists _, _. split; [reflexivity|]. split; [reflexivity|]. split; [congruence|eauto].
  - destruct b.
    + eexists _, _. split; [reflexivity|]. split; [reflexivity|]. split; [cbn; congruence|eauto].
    + eexists _, _. split; [reflexivity|]. split; [reflexivity|]. split; [discriminate|eauto].
Qed.

Lemma lay_ay : forall ss b lbl, AY (label_after_yields b ss lbl).
Proof.
  induction ss as [|s r IH]; intros b lbl; [intros j a b0 H; destruct j; discriminate|].
  destruct (lay_kind_head s r b lbl) as [s' [r' [E [Hk [_ [lbl' Er]]]]]]. rewrite E.
  intros j a b0 Ha Hb Hy. destruct j as [|j].
  - cbn in Ha, Hb. inversion Ha; subst a.
    destruct r as [|s2 r2]; [subst r'; cbn in Hb; discriminate|].
    destruct (lay_kind_head s2 r2 (is_yield s) lbl') as [s2' [r2' [E2 [_ [Hl2 _]]]]].
    rewrite Er, E2 in Hb. cbn in Hb. inversion Hb; subst b0. apply Hl2.
    unfold is_yield. rewrite <- Hk, Hy. reflexivity.
  - cbn [nth_error] in Ha, Hb. subst r'. exact (IH _ _ j a b0 Ha Hb Hy).
Qed.

Lemma map_targets_yield : forall r k, map_targets r k = KYield -> k = KYield.
Proof. intros r [c|c a b|t| |] H; cbn in H; try discriminate; reflexivity. Qed.

Lemma pos_rel_ay : forall r a b, pos_rel r a b -> AY a -> AY b.
Proof.
  intros r a b [Hlen H] Hay j x y Hx Hy Hk.
  assert (Hj : S j < length a) by (rewrite <- Hlen; apply nth_error_Some; congruence).
  destruct (nth_error a j) as [x0|] eqn:Ex; [|apply nth_error_None in Ex; lia].
  destruct (nth_error a (S j)) as [y0|] eqn:Ey; [|apply nth_error_None in Ey; lia].
  destruct (H j x0 Ex) as [x' [Hx' [Kx _]]]. rewrite Hx in Hx'. inversion Hx'; subst x'.
  destruct (H (S j) y0 Ey) as [y' [Hy' [_ Ly]]]. rewrite Hy in Hy'. inversion Hy'; subst y'.
  rewrite Hk in Kx. symmetry in Kx. apply map_targets_yield in Kx.
  pose proof (Hay j x0 y0 Ex Ey Kx) as Hl. destruct (s_label y0) as [t|]; [|congruence].
  rewrite (Ly t eq_refl). discriminate.
Qed.

Lemma pos_rel_trans_id : forall r a b c, pos_rel idr a b -> pos_rel r b c -> pos_rel r a c.
Proof.
  intros r a b c [L1 H1] [L2 H2]. split; [congruence|].
  intros p s Hp. destruct (H1 p s Hp) as [s' [A [B C]]]. destruct (H2 p s' A) as [s'' [A' [B' C']]].
  exists s''. split; [exact A'|]. split.
  - rewrite B', B, map_targets_idr. reflexivity.
  - intros t Ht. apply C'. apply (C t Ht).
Qed.

Lemma fix_labels_pos : forall ss out, fix_labels ss = Ok out ->
  exists r, pos_rel r ss out /\ AY out.
Proof.
  intros ss out H. unfold fix_labels in H. destruct ss as [|s0 r0].
  { inversion H; subst. exists idr. split; [apply pos_rel_refl|]. intros j a b Ha; destruct j; discriminate. }
  set (ss := s0 :: r0) in *. set (lbl := S (max_label ss)) in *.
  pose proof (label_first_pos ss lbl) as P1.
  destruct (label_first ss lbl) as [s1 lbl1]. cbn [fst] in P1.
  set (s2 := label_after_yields false s1 lbl1) in *.
  set (M := build_map s2 0 []) in *.
  pose proof (map_o_pos _ _ _ H) as P3.
  exists (remap M). split.
  - eapply pos_rel_trans_id; [exact P1|]. eapply pos_rel_trans_id; [apply lay_pos|exact P3].
  - eapply pos_rel_ay; [exact P3|apply lay_ay].
Qed.

Lemma simC : forall c out, fix_labels c = Ok out -> NoDup (labels c) -> targets_in_labels c ->
  simulates (flat_machine c) (LRun 0) (flat_machine out) (LRun 0).
Proof.
  intros c out H Hnd Htl.
  destruct (fix_labels_pos _ _ H) as [r [[Hlen Hpos] _]].
  assert (Hnd' : NoDup (labels out)).
  { destruct (fix_labels_ok c Hnd) as [out' [E [L _]]]. rewrite H in E. inversion E; subst out'.
    rewrite L. apply seq_NoDup. }
  apply same_sim; [symmetry; exact Hlen|].
  intros p s1 s2 H1 H2. destruct (Hpos p s1 H1) as [s' [A [K _]]].
  rewrite H2 in A. inversion A; subst s'. rewrite K.
  apply kind_rel_map. intros t Ht.
  assert (Hct : In t (collect_targets c)) by (eapply targets_of_stmt; eassumption).
  destruct (find_label_in c t (Htl t Hct)) as [q Hq].
  apply (target_rel_same _ _ t (r t) q Hq).
  destruct (find_label_some _ _ _ Hq) as [s [Hs Ls]].
  destruct (Hpos q s Hs) as [s'' [A' [_ L']]].
  apply (find_label_nodup _ q s'' (r t) Hnd' A'). apply L'. exact Ls.
Qed.

(* ------------------------------------------------------------------------- *)
(** * _split_in_subroutines and the generated C++ dispatch *)
Definition sub_shape (sub : list stmt) : Prop :=
  exists h tl, sub = h :: tl /\ s_label h <> None /\ labels tl = [].

Lemma split_shape : forall ss block subs,
  (block = [] -> ss = [] \/ exists s r, ss = s :: r /\ s_label s <> None) ->
  (block = [] \/ exists h t, block = h :: t /\ s_label h <> None /\ labels t = []) ->
  split_loop ss block = Ok subs -> Forall sub_shape subs.
Proof.
  induction ss as [|s r IH]; intros block subs Hss Hb H.
  - cbn [split_loop] in H. destruct Hb as [->|[h [t [-> [Hh Ht]]]]].
    + inversion H. constructor.
    + rewrite (check_sub_ok h t Hh Ht) in H. cbn [bind] in H. inversion H.
      constructor; [exists h, t; auto|constructor].
  - cbn [split_loop] in H. destruct (s_label s) as [l|] eqn:E.
    + assert (Hone : forall subs', split_loop r [s] = Ok subs' -> Forall sub_shape subs').
      { intros subs'. apply IH; [discriminate|]. right. exists s, []. repeat split. congruence. }
      destruct Hb as [->|[h [t [-> [Hh Ht]]]]].
      * apply Hone. exact H.
      * rewrite (check_sub_ok h t Hh Ht) in H. cbn [bind] in H.
        destruct (split_loop r [s]) as [rest| |] eqn:Er; cbn [bind] in H; try discriminate.
        inversion H. constructor; [exists h, t; auto|apply Hone; reflexivity].
    + destruct Hb as [->|[h [t [-> [Hh Ht]]]]].
      * destruct (Hss eq_refl) as [Hx|[s' [r' [H1 H2]]]]; [discriminate|].
        inversion H1; subst. congruence.
      * apply (IH ((h :: t) ++ [s])); [intros Hx; destruct t; discriminate| |exact H].
        right. exists h, (t ++ [s]). repeat split; [exact Hh|].
        rewrite labels_app, Ht, labels_cons, E. reflexivity.
Qed.

Lemma find_label_unlab : forall tl rest t, labels tl = [] ->
  find_label (tl ++ rest) t = option_map (fun q => length tl + q) (find_label rest t).
Proof.
  induction tl as [|x tl IH]; intros rest t H.
  - cbn. destruct (find_label rest t); reflexivity.
  - rewrite labels_cons in H. destruct (s_label x) eqn:E; cbn in H; [discriminate|].
    cbn [app find_label]. rewrite E. cbn [option_eqb]. rewrite (IH rest t H).
    destruct (find_label rest t); reflexivity.
Qed.

Lemma find_case_flat : forall subs off t, Forall sub_shape subs ->
  find_case subs off t = option_map (fun q => off + q) (find_label (concat subs) t).
Proof.
  induction subs as [|sub r IH]; intros off t H; [reflexivity|].
  inversion H as [|? ? Hs Hr]; subst. destruct Hs as [h [tl [-> [Hh Ht]]]].
  cbn [find_case concat sub_head_label app find_label].
  destruct (option_eqb Nat.eqb (s_label h) (Some t)).
  - cbn. f_equal. lia.
  - rewrite (IH _ t Hr), (find_label_unlab tl (concat r) t Ht).
    destruct (find_label (concat r) t); cbn; [f_equal; lia|reflexivity].
Qed.

Lemma unlabelled_nth : forall tl j b, labels tl = [] -> nth_error tl j = Some b -> s_label b = None.
Proof.
  intros tl j b H Hj. destruct (s_label b) as [t|] eqn:E; [|reflexivity].
  pose proof (in_labels_nth tl j b t Hj E) as Hin. rewrite H in Hin. contradiction.
Qed.

Lemma AY_app_l : forall a b, AY (a ++ b) -> AY a.
Proof.
  intros a b H j x y Hx Hy Hk.
  assert (S j < length a) by (apply nth_error_Some; congruence).
  apply (H j x y); [rewrite nth_error_app1 by lia; exact Hx|rewrite nth_error_app1 by lia; exact Hy|exact Hk].
Qed.

Lemma AY_app_r : forall a b, AY (a ++ b) -> AY b.
Proof.
  intros a b H j x y Hx Hy Hk.
  apply (H (length a + j) x y).
  - rewrite nth_error_app2 by lia. replace (length a + j - length a) with j by lia. exact Hx.
  - rewrite nth_error_app2 by lia. replace (S (length a + j) - length a) with (S j) by lia. exact Hy.
  - exact Hk.
Qed.

Definition YL (sub : list stmt) : Prop :=
  forall j s, nth_error sub j = Some s -> s_kind s = KYield -> S j = length sub.

Lemma shape_YL : forall sub, sub_shape sub -> AY sub -> YL sub.
Proof.
  intros sub [h [tl [-> [Hh Ht]]]] Hay j s Hj Hk.
  assert (Hlt : j < length (h :: tl)) by (apply nth_error_Some; congruence).
  destruct (Nat.eq_dec (S j) (length (h :: tl))) as [E|E]; [exact E|].
  exfalso. cbn [length] in *.
  destruct (nth_error tl j) as [b|] eqn:Eb; [|apply nth_error_None in Eb; lia].
  apply (Hay j s b Hj); [exact Eb|exact Hk|].
  eapply unlabelled_nth; eassumption.
Qed.

Lemma nth_repeat' : forall {A} (x d : A) n p, p < n -> nth p (repeat x n) d = x.
Proof.
  induction n as [|n IH]; intros p H; [lia|]. destruct p; cbn; [reflexivity|apply IH; lia].
Qed.

Lemma yield_table_spec : forall subs total, Forall sub_shape subs -> AY (concat subs) ->
  forall pc s, nth_error (concat subs) pc = Some s -> s_kind s = KYield ->
  (nth pc (yield_table subs total) LStuck = LRun total /\ S pc = length (concat subs))
  \/ (exists l sx, nth pc (yield_table subs total) LStuck = LGoto l
                   /\ nth_error (concat subs) (S pc) = Some sx /\ s_label sx = Some l).
Proof.
  induction subs as [|sub r IH]; intros total Hsh Hay pc s Hs Hk; [destruct pc; discriminate|].
  inversion Hsh as [|? ? Hsub Hr]; subst.
  cbn [concat] in *. pose proof (AY_app_l _ _ Hay) as Hay1. pose proof (AY_app_r _ _ Hay) as Hay2.
  cbn [yield_table].
  destruct (Nat.lt_ge_cases pc (length sub)) as [Hlt|Hge].
  - rewrite nth_error_app1 in Hs by exact Hlt.
    pose proof (shape_YL sub Hsub Hay1 pc s Hs Hk) as Hlast.
    rewrite app_nth1 by (rewrite repeat_length; exact Hlt). rewrite nth_repeat' by exact Hlt.
    destruct r as [|nx r'].
    + left. split; [reflexivity|]. cbn [concat]. rewrite app_nil_r. exact Hlast.
    + right. inversion Hr as [|? ? Hnx _]; subst. destruct Hnx as [h [tl [-> [Hh Ht]]]].
      cbn [sub_head_label]. destruct (s_label h) as [l|] eqn:El; [|congruence].
      exists l, h. split; [reflexivity|]. split; [|exact El].
      rewrite nth_error_app2 by lia. rewrite Hlast, Nat.sub_diag. reflexivity.
  - rewrite nth_error_app2 in Hs by exact Hge.
    rewrite app_nth2 by (rewrite repeat_length; exact Hge). rewrite repeat_length.
    destruct (IH total Hr Hay2 (pc - length sub) s Hs Hk) as [[E1 E2]|[l [sx [E1 [E2 E3]]]]].
    + left. split; [exact E1|]. rewrite app_length. lia.
    + right. exists l, sx. split; [exact E1|]. split; [|exact E3].
      rewrite nth_error_app2 by lia. replace (S pc - length sub) with (S (pc - length sub)) by lia.
      exact E2.
Qed.

Lemma simD : forall subs, Forall sub_shape subs -> AY (concat subs) ->
  NoDup (labels (concat subs)) -> targets_in_labels (concat subs) ->
  (exists sub0 r, subs = sub0 :: r /\ sub_head_label sub0 = Some 0) ->
  simulates (flat_machine (concat subs)) (LRun 0) (cpp_machine subs) (LGoto 0).
Proof.
  intros subs Hsh Hay Hnd Htl [sub0 [r0 [Esubs H0]]].
  apply (simulates_of_sim (flat_machine (concat subs)) (cpp_machine subs) (fun p => p)).
  - intros p s1 Hs1. cbn [flat_machine m_code] in Hs1. right. exists s1.
    split; [exact Hs1|]. split; [|split; [reflexivity|]].
    + rewrite <- (map_targets_id (s_kind s1)) at 2. apply kind_rel_map. intros t Ht.
      assert (Hct : In t (collect_targets (concat subs))) by (eapply targets_of_stmt; eassumption).
      destruct (find_label_in _ t (Htl t Hct)) as [q Hq].
      exists q, q. cbn [flat_machine cpp_machine m_resolve m_code].
      split; [exact Hq|]. split; [rewrite (find_case_flat subs 0 t Hsh), Hq; reflexivity|].
      split; [apply Nat.lt_le_incl; eapply find_label_lt; exact Hq|].
      split; [lia|]. intros j Hj. lia.
    + intros Hy. cbn [flat_machine cpp_machine m_yield m_code].
      assert (Hp : p < length (concat subs)) by (apply nth_error_Some; congruence).
      destruct (yield_table_spec subs (length (concat subs)) Hsh Hay p s1 Hs1 Hy)
        as [[E1 E2]|[l [sx [E1 [E2 E3]]]]]; rewrite E1; cbn [conf_rel flat_machine cpp_machine m_code m_resolve].
      * split; [lia|]. split; [lia|]. intros j Hj. lia.
      * exists (S p). split.
        -- rewrite (find_case_flat subs 0 l Hsh), (find_label_nodup _ (S p) sx l Hnd E2 E3). reflexivity.
        -- split; [lia|]. split; [lia|]. intros j Hj. lia.
  - reflexivity.
  - cbn [conf_rel cpp_machine m_resolve flat_machine m_code]. exists 0. split.
    + rewrite Esubs. cbn [find_case]. rewrite H0. reflexivity.
    + split; [lia|]. split; [lia|]. intros j Hj. lia.
Qed.

(* ------------------------------------------------------------------------- *)
(** * The full theorem *)
From Acg Require Import Model.LinearCheck Proofs.LinearCheck Proofs.LinearMain.

Lemma sim_same_traces : forall f orc M2 c2, wf_flow f = true ->
  simulates (flat_machine (linearize_control_flow f)) (LRun 0) M2 c2 ->
  same_traces (fun n => fst (fst (lin_run M2 orc n c2 0))) f orc.
Proof.
  intros f orc M2 c2 Hwf Hsim k. unfold run_struct.
  destruct (struct_run orc k (SRun f) 0) as [[t sc] i] eqn:E.
  destruct (raw_correct f orc k Hwf t sc i E) as [n1 [c1 [Hrun1 HR]]].
  destruct (Hsim orc n1 0 t c1 i Hrun1) as [n2 [c2' [Hrun2 Hh]]].
  destruct (struct_run_len _ _ _ _ _ _ _ E) as [Hle Hor].
  exists n2. cbn [fst]. eapply reach_limit; [exact Hrun2|exact Hle|].
  destruct Hor as [A|B]; [left; exact A|right]. subst sc. apply Hh.
  eapply match_conf_halt; exact HR.
Qed.

Lemma run_flat_nil : forall orc n,
  fst (fst (lin_run (flat_machine []) orc n (LRun 0) 0)) = match n with O => [] | S _ => [EDone] end.
Proof.
  intros orc [|n]; [reflexivity|]. cbn [lin_run lin_step flat_machine m_code nth_error].
  rewrite lin_run_halt. reflexivity.
Qed.

Theorem linearize_correct : forall f subs orc, wf_flow f = true ->
  linearize_to_subroutines f = Ok subs ->
  same_traces (fun n => run_lin n subs orc) f orc.
Proof.
  intros f subs orc Hwf Hlin. unfold linearize_to_subroutines in Hlin.
  destruct f as [|x f']; [inversion Hlin; subst; apply empty_same_traces|].
  set (f := x :: f') in *.
  destruct (lin_seq_facts f Hwf 0) as [[Hlab _] _].
  assert (Hnd : NoDup (labels (linearize_control_flow f))).
  { unfold linearize_control_flow. rewrite (labels_of_from _ _ Hlab). apply seq_NoDup. }
  pose proof (raw_til f Hwf) as Htl.
  destruct (compress_ok _ Hnd) as [s1 [C1 Hnd1]]. rewrite C1 in Hlin. cbn [bind] in Hlin.
  pose proof (compress_til _ _ C1 Hnd Htl) as Htl1.
  pose proof (simAB _ _ C1 Hnd Htl) as SimAB.
  destruct (fix_labels_ok s1 Hnd1) as [s2 [F1 [F2 F3]]]. rewrite F1 in Hlin. cbn [bind] in Hlin.
  pose proof (fix_labels_til _ _ F1 Hnd1 Htl1) as Htl2.
  pose proof (simC _ _ F1 Hnd1 Htl1) as SimC.
  destruct (fix_labels_pos _ _ F1) as [_ [_ Hay2]].
  assert (Hnd2 : NoDup (labels s2)) by (rewrite F2; apply seq_NoDup).
  unfold split_in_subroutines in Hlin.
  assert (Hpre1 : @nil stmt = [] -> s2 = [] \/ exists s r, s2 = s :: r /\ s_label s <> None).
  { intros _. destruct F3 as [->|[s' [r' [-> Hs']]]]; [left; reflexivity|].
    right. exists s', r'. split; [reflexivity|exact Hs']. }
  assert (Hpre2 : @nil stmt = [] \/ exists h t, @nil stmt = h :: t /\ s_label h <> None /\ labels t = [])
    by (left; reflexivity).
  destruct (split_ok s2 [] Hpre1 Hpre2) as [subs' [S1 [S2 S3]]].
  pose proof (split_shape s2 [] subs' Hpre1 Hpre2 S1) as Hshape.
  rewrite S1 in Hlin. cbn [bind] in Hlin.
  destruct (consecutive_heads subs') as [ok| |]; cbn [bind] in Hlin; try discriminate.
  destruct ok; [|discriminate]. inversion Hlin; subst subs'. clear Hlin.
  cbn [app] in S2, S3.
  pose proof (simulates_trans _ _ _ _ _ _ SimAB SimC) as Sim2.
  destruct subs as [|sub0 r0].
  - (* no subroutine: the code is empty *)
    cbn [concat] in S3. subst s2.
    pose proof (sim_same_traces f orc _ _ Hwf Sim2) as Hst.
    intros k. destruct (Hst k) as [n Hn]. exists (S n). intros n' Hle.
    specialize (Hn n' ltac:(lia)). rewrite run_flat_nil in Hn.
    unfold run_lin. destruct n'; [lia|exact Hn].
  - set (subs := sub0 :: r0) in *.
    assert (SimD : simulates (flat_machine (concat subs)) (LRun 0) (cpp_machine subs) (LGoto 0)).
    { apply simD; try (rewrite S3; assumption); [exact Hshape|].
      exists sub0, r0. split; [reflexivity|].
      unfold subs in S2. cbn [map] in S2. rewrite F2 in S2.
      destruct (length (labels s2)); cbn [seq map] in S2; [discriminate|]. congruence. }
    rewrite S3 in SimD.
    exact (sim_same_traces f orc _ _ Hwf (simulates_trans _ _ _ _ _ _ Sim2 SimD)).
Qed.
