From Coq Require Import List NArith ZArith Bool Lia.
From Acg Require Import Base.Str Model.SmokeSkel.
Import ListNotations.
Open Scope Z_scope.

Lemma run_spec stages final i fails :
  skel_ok stages final = true ->
  (fst (run stages final i fails) = 0
   <-> forall k, (k < length stages)%nat -> fails (i + k)%nat = false)
  /\ (fst (run stages final i fails) <> 0 -> snd (run stages final i fails) = true).
Proof.
  unfold skel_ok. intros H. apply andb_prop in H. destruct H as [Hf Hs].
  apply Z.eqb_eq in Hf. subst final.
  revert i. induction stages as [|s r IH]; intros i.
  - cbn. split; [split; [intros _ k Hk; lia|reflexivity]|intros Hc; contradiction].
  - cbn [forallb] in Hs. apply andb_prop in Hs. destruct Hs as [Hs1 Hs2].
    apply andb_prop in Hs1. destruct Hs1 as [Hret Hrep].
    apply negb_true_iff in Hret. apply Z.eqb_neq in Hret.
    specialize (IH Hs2 (S i)). destruct IH as [IH1 IH2].
    cbn [run]. destruct (fails i) eqn:Ef.
    + cbn [fst snd]. split; [split|].
      * intros Hc. contradiction.
      * intros Hall. specialize (Hall 0%nat). cbn in Hall. rewrite Nat.add_0_r in Hall.
        rewrite Hall in Ef by lia. discriminate.
      * intros _. exact Hrep.
    + split; [|exact IH2]. rewrite IH1. split.
      * intros Hall k Hk. destruct k as [|k].
        -- now rewrite Nat.add_0_r.
        -- replace (i + S k)%nat with (S i + k)%nat by lia. apply Hall. cbn in Hk. lia.
      * intros Hall k Hk. replace (S i + k)%nat with (i + S k)%nat by lia. apply Hall. cbn. lia.
Qed.
